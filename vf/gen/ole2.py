"""Independent Compound File Binary (OLE2) writer + mini-reader and [MS-OLEPS] property-set writer.

Written from [MS-CFB] v3 (512-byte sectors) and [MS-OLEPS]; nothing here looks at the code under test.
Everything is deterministic: no clock, no randomness, timestamps in the directory are zero.

    write_cfb(streams, root_clsid=...) -> bytes
    read_cfb(data) -> {path: bytes}
    property_set(props, fmtid=..., codepage=..., count_override=...) -> bytes
    selfcheck() -> bool      (uses olefile as an independent cross-check only)
"""
from __future__ import annotations

import datetime as _dt
import struct
import uuid

MAGIC = bytes.fromhex("D0CF11E0A1B11AE1")
SECTOR = 512
MINI_SECTOR = 64
MINI_CUTOFF = 4096
MAXREGSECT = 0xFFFFFFFA
DIFSECT = 0xFFFFFFFC
FATSECT = 0xFFFFFFFD
ENDOFCHAIN = 0xFFFFFFFE
FREESECT = 0xFFFFFFFF
NOSTREAM = 0xFFFFFFFF

FMTID_SUMMARY = uuid.UUID("F29F85E0-4FF9-1068-AB91-08002B27B3D9").bytes_le
FMTID_DOCSUMMARY = uuid.UUID("D5CDD502-2E9C-101B-9397-08002B2CF9AE").bytes_le

VT_I2, VT_I4, VT_BOOL, VT_LPSTR, VT_LPWSTR, VT_FILETIME = 2, 3, 11, 30, 31, 64

PID_CODEPAGE, PID_TITLE, PID_SUBJECT, PID_AUTHOR, PID_KEYWORDS, PID_COMMENTS = 1, 2, 3, 4, 5, 6
PID_LASTAUTHOR, PID_CREATED, PID_LASTSAVED = 8, 12, 13


# ----------------------------------------------------------------------------------------------
# directory helpers
# ----------------------------------------------------------------------------------------------

def _upper(name: str) -> str:
    # [MS-CFB] 2.6.4: simple (one-to-one) upper-casing of each UTF-16 code point
    out = []
    for ch in name:
        u = ch.upper()
        out.append(u if len(u) == 1 else ch)
    return "".join(out)


def _utf16_units(name: str) -> list[int]:
    raw = name.encode("utf-16-le")
    return list(struct.unpack("<%dH" % (len(raw) // 2), raw))


def _sort_key(name: str):
    # shorter name is less; equal length: compare upper-cased UTF-16 code units
    return (len(_utf16_units(name)), _utf16_units(_upper(name)))


class _Node:
    __slots__ = ("name", "kind", "data", "children", "sid", "left", "right", "child", "color", "start", "size")

    def __init__(self, name: str, kind: int, data: bytes = b""):
        self.name = name
        self.kind = kind  # 5 root, 1 storage, 2 stream
        self.data = data
        self.children: dict[str, _Node] = {}
        self.sid = -1
        self.left = self.right = self.child = NOSTREAM
        self.color = 1  # black
        self.start = 0
        self.size = 0


def _check_name(name: str) -> None:
    if not name:
        raise ValueError("empty storage/stream name")
    if len(_utf16_units(name)) > 31:
        raise ValueError("name longer than 31 UTF-16 code units: %r" % name)
    for bad in "/\\:!":
        if bad in name:
            raise ValueError("illegal character %r in name %r" % (bad, name))


def _build_tree(streams: dict[str, bytes]) -> _Node:
    root = _Node("Root Entry", 5)
    for path, data in streams.items():
        if not isinstance(data, (bytes, bytearray)):
            raise TypeError("stream %r is not bytes" % path)
        parts = path.split("/")
        cur = root
        for p in parts[:-1]:
            _check_name(p)
            nxt = cur.children.get(_upper(p))
            if nxt is None:
                nxt = _Node(p, 1)
                cur.children[_upper(p)] = nxt
            elif nxt.kind != 1:
                raise ValueError("%r is both a stream and a storage" % p)
            cur = nxt
        leaf = parts[-1]
        _check_name(leaf)
        if _upper(leaf) in cur.children:
            raise ValueError("duplicate entry %r" % path)
        cur.children[_upper(leaf)] = _Node(leaf, 2, bytes(data))
    return root


def _assign_sids(root: _Node) -> list[_Node]:
    """Breadth-first stream ids; siblings in sorted order."""
    order = [root]
    i = 0
    while i < len(order):
        n = order[i]
        i += 1
        for c in sorted(n.children.values(), key=lambda x: _sort_key(x.name)):
            order.append(c)
    for sid, n in enumerate(order):
        n.sid = sid
    return order


def _link_siblings(parent: _Node, balanced: bool) -> None:
    sibs = sorted(parent.children.values(), key=lambda x: _sort_key(x.name))
    if not sibs:
        return
    if not balanced:
        # degenerate right-linked sorted list, all nodes black (accepted by every reader; not a strict RB tree)
        for a, b in zip(sibs, sibs[1:]):
            a.right = b.sid
        parent.child = sibs[0].sid
        return
    # perfectly balanced BST by middle split: all levels full except possibly the last one.
    # colouring: every node black, except the nodes of the last level when that level is incomplete -> valid red-black tree
    n = len(sibs)
    height = n.bit_length() - 1           # depth of the deepest level
    perfect = (n == (1 << (height + 1)) - 1)

    def build(lo: int, hi: int, depth: int) -> int:
        if lo >= hi:
            return NOSTREAM
        mid = (lo + hi) // 2
        node = sibs[mid]
        node.left = build(lo, mid, depth + 1)
        node.right = build(mid + 1, hi, depth + 1)
        node.color = 0 if (not perfect and depth == height) else 1
        return node.sid

    parent.child = build(0, n, 0)


def _dir_entry(n: _Node, root_clsid: bytes) -> bytes:
    raw = n.name.encode("utf-16-le") + b"\0\0"
    name_field = raw.ljust(64, b"\0")
    clsid = root_clsid if n.kind == 5 else bytes(16)
    return (name_field + struct.pack("<HBBIII", len(raw), n.kind, n.color, n.left, n.right, n.child) + clsid
            + struct.pack("<IQQIQ", 0, 0, 0, n.start, n.size))


_FREE_ENTRY = bytes(64) + struct.pack("<HBBIII", 0, 0, 0, NOSTREAM, NOSTREAM, NOSTREAM) + bytes(16) + struct.pack("<IQQIQ", 0, 0, 0, 0, 0)


def _pad(b: bytes, n: int) -> bytes:
    r = len(b) % n
    return b if r == 0 else b + bytes(n - r)


# ----------------------------------------------------------------------------------------------
# writer
# ----------------------------------------------------------------------------------------------

def write_cfb(streams: dict[str, bytes], *, root_clsid: bytes = bytes(16), balanced: bool = True) -> bytes:
    """Serialise `streams` ({"a/b/c": bytes}) as a version-3 compound file.

    Sector order in the file: directory, miniFAT, mini stream, regular streams, FAT, DIFAT.
    `balanced=False` writes sibling lists as right-linked sorted chains instead of a red-black tree.
    """
    if len(root_clsid) != 16:
        raise ValueError("root_clsid must be 16 bytes")
    root = _build_tree(streams)
    order = _assign_sids(root)
    for n in order:
        if n.kind in (1, 5):
            _link_siblings(n, balanced)

    # ---- mini stream
    mini = bytearray()
    minifat: list[int] = []
    big: list[_Node] = []
    for n in order:
        if n.kind != 2:
            continue
        n.size = len(n.data)
        if n.size == 0:
            n.start = ENDOFCHAIN
        elif n.size < MINI_CUTOFF:
            first = len(minifat)
            cnt = (n.size + MINI_SECTOR - 1) // MINI_SECTOR
            for k in range(cnt):
                minifat.append(first + k + 1 if k < cnt - 1 else ENDOFCHAIN)
            n.start = first
            mini += _pad(n.data, MINI_SECTOR)
        else:
            big.append(n)

    n_dir = (len(order) * 128 + SECTOR - 1) // SECTOR
    n_minifat = (len(minifat) * 4 + SECTOR - 1) // SECTOR
    n_mini = (len(mini) + SECTOR - 1) // SECTOR

    fat: list[int] = []
    body = bytearray()

    def add_chain(payload: bytes, count: int) -> int:
        """append `count` sectors holding payload as one chain; returns first sector or ENDOFCHAIN"""
        if count == 0:
            return ENDOFCHAIN
        first = len(fat)
        for k in range(count):
            fat.append(first + k + 1 if k < count - 1 else ENDOFCHAIN)
        body.extend(payload.ljust(count * SECTOR, b"\0"))
        return first

    # the directory must be written after the start sectors are known -> reserve, fill later
    dir_first = add_chain(b"", n_dir)
    mf_raw = b"".join(struct.pack("<I", x) for x in minifat)
    mf_raw = mf_raw + struct.pack("<I", FREESECT) * ((-len(minifat)) % 128)
    minifat_first = add_chain(mf_raw, n_minifat)
    root.start = add_chain(bytes(mini), n_mini)
    root.size = len(mini)
    for n in big:
        n.start = add_chain(n.data, (n.size + SECTOR - 1) // SECTOR)

    dir_raw = b"".join(_dir_entry(n, root_clsid) for n in order)
    dir_raw += _FREE_ENTRY * ((-len(order)) % 4)
    body[dir_first * SECTOR:(dir_first + n_dir) * SECTOR] = dir_raw

    # ---- FAT and DIFAT sizing (both describe themselves)
    n_data = len(fat)
    n_fat = 0
    n_difat = 0
    while True:
        total = n_data + n_fat + n_difat
        need_fat = (total + 127) // 128
        need_difat = 0 if need_fat <= 109 else (need_fat - 109 + 126) // 127
        if need_fat == n_fat and need_difat == n_difat:
            break
        n_fat, n_difat = need_fat, need_difat
    fat_first = n_data
    difat_first = n_data + n_fat
    fat.extend([FATSECT] * n_fat)
    fat.extend([DIFSECT] * n_difat)
    fat_raw = b"".join(struct.pack("<I", x) for x in fat) + struct.pack("<I", FREESECT) * ((-len(fat)) % 128)
    body.extend(fat_raw)
    fat_sectors = [fat_first + i for i in range(n_fat)]
    header_difat = fat_sectors[:109] + [FREESECT] * (109 - min(109, n_fat))
    rest = fat_sectors[109:]
    for i in range(n_difat):
        chunk = rest[i * 127:(i + 1) * 127]
        chunk = chunk + [FREESECT] * (127 - len(chunk))
        nxt = difat_first + i + 1 if i < n_difat - 1 else ENDOFCHAIN
        body.extend(struct.pack("<128I", *chunk, nxt))

    header = (MAGIC + bytes(16) + struct.pack("<HHHHH", 0x003E, 0x0003, 0xFFFE, 9, 6) + bytes(6)
              + struct.pack("<IIIIIIIII", 0, n_fat, dir_first, 0, MINI_CUTOFF,
                            minifat_first, n_minifat,
                            difat_first if n_difat else ENDOFCHAIN, n_difat)
              + struct.pack("<109I", *header_difat))
    assert len(header) == 512
    return bytes(header) + bytes(body)


# ----------------------------------------------------------------------------------------------
# independent mini-reader
# ----------------------------------------------------------------------------------------------

class CFBError(ValueError):
    pass


def read_cfb_entries(data: bytes) -> list[dict]:
    """Directory entries as dicts (sid, name, type, color, left, right, child, start, size, clsid, path)."""
    return _read(data)[1]


def read_cfb(data: bytes) -> dict[str, bytes]:
    return _read(data)[0]


def _read(data: bytes):
    if data[:8] != MAGIC:
        raise CFBError("bad magic")
    (minor, major, bom, sshift, mshift) = struct.unpack_from("<HHHHH", data, 24)
    if bom != 0xFFFE:
        raise CFBError("bad byte order mark")
    ssz = 1 << sshift
    msz = 1 << mshift
    (n_dirsect, n_fat, dir_first, _txn, cutoff, mf_first, n_mf, dif_first, n_dif) = struct.unpack_from("<9I", data, 40)
    n_sectors = (len(data) - ssz + ssz - 1) // ssz

    def sector(i: int) -> bytes:
        if i >= n_sectors:
            raise CFBError("sector %d out of range" % i)
        off = (i + 1) * ssz if ssz == 512 else ssz + i * ssz
        return data[off:off + ssz].ljust(ssz, b"\0")

    difat = list(struct.unpack_from("<109I", data, 76))
    cur, seen = dif_first, set()
    per = ssz // 4
    while cur not in (ENDOFCHAIN, FREESECT) and n_dif:
        if cur in seen:
            raise CFBError("DIFAT loop")
        seen.add(cur)
        vals = struct.unpack("<%dI" % per, sector(cur))
        difat.extend(vals[:-1])
        cur = vals[-1]
    fat_ids = [x for x in difat if x <= MAXREGSECT][:n_fat]
    fat: list[int] = []
    for s in fat_ids:
        fat.extend(struct.unpack("<%dI" % per, sector(s)))

    def chain(start: int, table: list[int]) -> list[int]:
        out, seen2 = [], set()
        cur2 = start
        while cur2 != ENDOFCHAIN:
            if cur2 > MAXREGSECT or cur2 >= len(table) or cur2 in seen2:
                raise CFBError("broken chain at %r" % cur2)
            seen2.add(cur2)
            out.append(cur2)
            cur2 = table[cur2]
        return out

    dir_raw = b"".join(sector(s) for s in chain(dir_first, fat))
    entries = []
    for i in range(len(dir_raw) // 128):
        e = dir_raw[i * 128:(i + 1) * 128]
        nlen, typ, color, left, right, child = struct.unpack_from("<HBBIII", e, 64)
        _state, _ct, _mt, start, size = struct.unpack_from("<IQQIQ", e, 96)
        if major == 3:
            size &= 0xFFFFFFFF
        name = e[:max(0, nlen - 2)].decode("utf-16-le") if typ else ""
        entries.append({"sid": i, "name": name, "type": typ, "color": color, "left": left, "right": right,
                        "child": child, "start": start, "size": size, "clsid": e[80:96], "path": None})
    if not entries or entries[0]["type"] != 5:
        raise CFBError("no root entry")
    root = entries[0]
    minifat: list[int] = []
    if n_mf and mf_first != ENDOFCHAIN:
        for s in chain(mf_first, fat):
            minifat.extend(struct.unpack("<%dI" % per, sector(s)))
    ministream = b""
    if root["size"]:
        ministream = b"".join(sector(s) for s in chain(root["start"], fat))[:root["size"]]

    def stream_bytes(e) -> bytes:
        if e["size"] == 0:
            return b""
        if e["size"] < cutoff:
            ids = chain(e["start"], minifat)
            raw = b"".join(ministream[i * msz:(i + 1) * msz].ljust(msz, b"\0") for i in ids)
        else:
            raw = b"".join(sector(s) for s in chain(e["start"], fat))
        if len(raw) < e["size"]:
            raise CFBError("stream %r shorter than its size" % e["name"])
        return raw[:e["size"]]

    out: dict[str, bytes] = {}
    visited: set[int] = set()

    def walk(sid: int, prefix: str) -> None:
        # iterative in-order traversal of the sibling tree
        stack, cur3 = [], sid
        while stack or cur3 != NOSTREAM:
            while cur3 != NOSTREAM:
                if cur3 >= len(entries) or cur3 in visited:
                    raise CFBError("directory loop / bad sid %r" % cur3)
                visited.add(cur3)
                stack.append(cur3)
                cur3 = entries[cur3]["left"]
            e = entries[stack.pop()]
            path = prefix + e["name"]
            e["path"] = path
            if e["type"] == 2:
                out[path] = stream_bytes(e)
            elif e["type"] == 1:
                walk(e["child"], path + "/")
            cur3 = e["right"]

    walk(root["child"], "")
    return out, entries


def check_directory(data: bytes) -> list[str]:
    """Structural problems of the directory trees ([] = valid red-black trees in sorted order)."""
    problems: list[str] = []
    _, entries = _read(data)

    def subtree(sid: int):
        """returns (sorted names list, black height)"""
        if sid == NOSTREAM:
            return [], 1
        e = entries[sid]
        ln, lb = subtree(e["left"])
        rn, rb = subtree(e["right"])
        if lb != rb:
            problems.append("black height differs below %r" % e["name"])
        if e["color"] == 0:
            for c in (e["left"], e["right"]):
                if c != NOSTREAM and entries[c]["color"] == 0:
                    problems.append("red node %r has a red child" % e["name"])
        return ln + [e["name"]] + rn, lb + (1 if e["color"] == 1 else 0)

    for e in entries:
        if e["type"] in (1, 5) and e["child"] != NOSTREAM:
            names, _ = subtree(e["child"])
            if entries[e["child"]]["color"] != 1:
                problems.append("root of sibling tree under %r is red" % e["name"])
            if names != sorted(names, key=_sort_key):
                problems.append("siblings under %r not in sorted order" % e["name"])
    return problems


# ----------------------------------------------------------------------------------------------
# [MS-OLEPS] property set
# ----------------------------------------------------------------------------------------------

_EPOCH_1601 = _dt.datetime(1601, 1, 1)

_PY_CODECS = {1200: "utf-16-le", 65001: "utf-8", 10000: "mac-roman", 932: "cp932", 936: "gbk", 949: "cp949", 950: "cp950",
              20127: "ascii", 28591: "latin-1"}


def codec_for(codepage: int) -> str:
    return _PY_CODECS.get(codepage, "cp%d" % codepage)


def filetime(value: _dt.datetime) -> int:
    if value.tzinfo is not None:
        value = value.astimezone(_dt.timezone.utc).replace(tzinfo=None)
    d = value - _EPOCH_1601
    return (d.days * 86400 + d.seconds) * 10_000_000 + d.microseconds * 10


def _pad4(b: bytes) -> bytes:
    return b + bytes((-len(b)) % 4)


def _typed_value(value: object, codepage: int) -> bytes:
    if isinstance(value, tuple) and len(value) == 2 and isinstance(value[0], int) and isinstance(value[1], (bytes, bytearray)):
        return _pad4(struct.pack("<I", value[0]) + bytes(value[1]))          # raw escape: (vt, payload)
    if isinstance(value, bool):
        return struct.pack("<Ihh", VT_BOOL, -1 if value else 0, 0)
    if isinstance(value, int):
        return struct.pack("<Ii", VT_I4, value)
    if isinstance(value, _dt.datetime):
        return struct.pack("<IQ", VT_FILETIME, filetime(value))
    if isinstance(value, str):
        if codepage == 1200:
            raw = (value + "\0").encode("utf-16-le")
            return _pad4(struct.pack("<II", VT_LPWSTR, len(raw) // 2) + raw)
        raw = value.encode(codec_for(codepage)) + b"\0"
        return _pad4(struct.pack("<II", VT_LPSTR, len(raw)) + raw)
    raise TypeError("unsupported property value %r" % (value,))


def property_set(props: dict[int, object], *, fmtid: bytes = FMTID_SUMMARY, codepage: int = 1252,
                 count_override: int | None = None) -> bytes:
    """One-section property set stream. Property 1 (code page, VT_I2) is always emitted first."""
    if len(fmtid) != 16:
        raise ValueError("fmtid must be 16 bytes")
    cp_signed = codepage - 0x10000 if codepage >= 0x8000 else codepage
    items: list[tuple[int, bytes]] = [(PID_CODEPAGE, struct.pack("<Ihh", VT_I2, cp_signed, 0))]
    for pid, value in props.items():
        if pid == PID_CODEPAGE:
            continue
        items.append((pid, _typed_value(value, codepage)))
    n = len(items)
    off = 8 + 8 * n
    table = b""
    values = b""
    for pid, raw in items:
        table += struct.pack("<II", pid, off + len(values))
        values += raw
    size = off + len(values)
    count = n if count_override is None else count_override & 0xFFFFFFFF
    section = struct.pack("<II", size, count) + table + values
    header = struct.pack("<HHI", 0xFFFE, 0, 0x00020005) + bytes(16) + struct.pack("<I", 1) + fmtid + struct.pack("<I", 48)
    assert len(header) == 48
    return header + section


def parse_property_set(raw: bytes) -> dict[int, object]:
    """Own minimal parser (self-check only): returns {pid: python value}, strings decoded with property 1."""
    bom, _ver, _os = struct.unpack_from("<HHI", raw, 0)
    if bom != 0xFFFE:
        raise ValueError("bad property set byte order")
    (nsec,) = struct.unpack_from("<I", raw, 24)
    if nsec < 1:
        return {}
    (sec_off,) = struct.unpack_from("<I", raw, 44)
    _size, count = struct.unpack_from("<II", raw, sec_off)
    pairs = []
    for i in range(min(count, (len(raw) - sec_off - 8) // 8)):
        pairs.append(struct.unpack_from("<II", raw, sec_off + 8 + 8 * i))
    cp = 1252
    out: dict[int, object] = {}
    for pid, off in pairs:
        if pid == 1:
            (vt,) = struct.unpack_from("<I", raw, sec_off + off)
            if vt == VT_I2:
                cp = struct.unpack_from("<H", raw, sec_off + off + 4)[0]
    for pid, off in pairs:
        p = sec_off + off
        if p + 4 > len(raw):
            continue
        (vt,) = struct.unpack_from("<I", raw, p)
        if vt == VT_I2:
            out[pid] = struct.unpack_from("<H", raw, p + 4)[0] if pid == 1 else struct.unpack_from("<h", raw, p + 4)[0]
        elif vt == VT_I4:
            out[pid] = struct.unpack_from("<i", raw, p + 4)[0]
        elif vt == VT_BOOL:
            out[pid] = struct.unpack_from("<h", raw, p + 4)[0] != 0
        elif vt == VT_LPSTR:
            (n,) = struct.unpack_from("<I", raw, p + 4)
            b = raw[p + 8:p + 8 + n]
            if cp == 1200:
                out[pid] = b.decode("utf-16-le").rstrip("\0")
            else:
                out[pid] = b.rstrip(b"\0").decode(codec_for(cp))
        elif vt == VT_LPWSTR:
            (n,) = struct.unpack_from("<I", raw, p + 4)
            out[pid] = raw[p + 8:p + 8 + 2 * n].decode("utf-16-le").rstrip("\0")
        elif vt == VT_FILETIME:
            (ft,) = struct.unpack_from("<Q", raw, p + 4)
            out[pid] = _EPOCH_1601 + _dt.timedelta(microseconds=ft // 10)
        else:
            out[pid] = (vt, None)
    return out


# ----------------------------------------------------------------------------------------------
# self-check
# ----------------------------------------------------------------------------------------------

def _det_bytes(n: int, seed: int) -> bytes:
    # deterministic filler (LCG), no randomness source
    out = bytearray(n)
    x = (seed * 2654435761 + 12345) & 0xFFFFFFFF
    for i in range(n):
        x = (x * 1103515245 + 12345) & 0xFFFFFFFF
        out[i] = (x >> 16) & 0xFF
    return bytes(out)


def selfcheck(verbose: bool = False) -> bool:
    import io

    import olefile

    def fail(msg: str) -> bool:
        if verbose:
            print("ole2 selfcheck FAILED:", msg)
        return False

    title = "Übersicht é"
    when = _dt.datetime(2021, 3, 4, 5, 6, 7)
    cases: list[dict[str, bytes]] = []
    base = {
        "Workbook": _det_bytes(10000, 1),
        "small": b"hello",
        "empty": b"",
        "exact64": _det_bytes(64, 2),
        "x4095": _det_bytes(4095, 3),
        "x4096": _det_bytes(4096, 4),
        "x4097": _det_bytes(4097, 5),
        "ObjectPool/_123/Ole10Native": _det_bytes(700, 6),
        "ObjectPool/_123/\x01CompObj": _det_bytes(100, 7),
        "ObjectPool/_45/Ole10Native": _det_bytes(5000, 8),
        "Ünïcode-Näme": b"non-ascii name",
        "\x05SummaryInformation": property_set({2: title, 4: "Jörg", 12: when, 14: 3}, codepage=1252),
        "\x05DocumentSummaryInformation": property_set({2: "cat", 15: "Firma"}, fmtid=FMTID_DOCSUMMARY),
    }
    cases.append(base)
    cases.append({"only": b"x"})
    cases.append({})
    cases.append({"s%02d" % i: _det_bytes(37 * i, i) for i in range(40)})          # many siblings -> RB tree several levels
    cases.append({"big": _det_bytes(128 * 512 * 3 + 17, 9)})                        # several FAT sectors
    for balanced in (True, False):
        for streams in cases:
            blob = write_cfb(streams, balanced=balanced)
            if len(blob) % 512:
                return fail("file size not a sector multiple")
            if blob != write_cfb(streams, balanced=balanced):
                return fail("not deterministic")
            back = read_cfb(blob)
            if back != streams:
                return fail("own reader mismatch: %r vs %r" % (sorted(back), sorted(streams)))
            if balanced and check_directory(blob):
                return fail("directory tree invalid: %r" % check_directory(blob))
            if not olefile.isOleFile(blob):
                return fail("olefile.isOleFile false")
            with olefile.OleFileIO(io.BytesIO(blob)) as ole:
                listed = {"/".join(p) for p in ole.listdir(streams=True, storages=False)}
                if listed != set(streams):
                    return fail("olefile listdir mismatch: %r vs %r" % (sorted(listed), sorted(streams)))
                for path, payload in streams.items():
                    if ole.openstream(path.split("/")).read() != payload:
                        return fail("olefile stream content mismatch for %r" % path)
                    if ole.get_size(path.split("/")) != len(payload):
                        return fail("olefile size mismatch for %r" % path)
    # DIFAT sectors (> 109 FAT sectors => > 7 MB)
    huge = {"huge": _det_bytes(1000, 11) * 7500, "tiny": b"t"}
    blob = write_cfb(huge)
    if struct.unpack_from("<I", blob, 72)[0] < 1:
        return fail("expected DIFAT sectors for a 7.5 MB stream")
    if read_cfb(blob) != huge:
        return fail("own reader mismatch (DIFAT case)")
    with olefile.OleFileIO(io.BytesIO(blob)) as ole:
        if ole.openstream("huge").read() != huge["huge"] or ole.openstream("tiny").read() != b"t":
            return fail("olefile mismatch (DIFAT case)")
    # root clsid
    clsid = uuid.UUID("00020820-0000-0000-C000-000000000046").bytes_le
    with olefile.OleFileIO(io.BytesIO(write_cfb({"a": b"1"}, root_clsid=clsid))) as ole:
        if ole.root.clsid.upper() != "00020820-0000-0000-C000-000000000046":
            return fail("root clsid not read back: %r" % ole.root.clsid)
    # property sets through olefile.get_metadata for the three code pages
    for cp in (1252, 65001, 1200):
        ps = property_set({2: title, 3: "subj", 4: "Ann Author", 5: "k1 k2", 6: "a comment", 8: "Zoë",
                           12: when, 13: when + _dt.timedelta(days=1)}, codepage=cp)
        own = parse_property_set(ps)
        if own.get(1) != cp or own.get(2) != title or own.get(8) != "Zoë" or own.get(12) != when:
            return fail("own property parser mismatch for cp %d: %r" % (cp, own))
        blob = write_cfb({"\x05SummaryInformation": ps, "WordDocument": b"x" * 5000})
        with olefile.OleFileIO(io.BytesIO(blob)) as ole:
            meta = ole.get_metadata()

            def dec(v):
                if isinstance(v, bytes):
                    return v.decode(codec_for(cp))
                if cp == 1200 and isinstance(v, str) and "\0" in v:
                    # olefile 0.47 defect: for VT_LPWSTR it takes the character count from the first four bytes of the
                    # string instead of the length field, so it returns the string followed by the rest of the section.
                    # The layout written here is the [MS-OLEPS] UnicodeString (Length u32, then UTF-16LE incl. NUL);
                    # the strict check for it is parse_property_set() above.
                    return v.split("\0", 1)[0]
                return v
            if meta.codepage & 0xFFFF != cp:      # VT_I2 is signed: olefile reports 65001 as -535
                return fail("olefile codepage %r != %d" % (meta.codepage, cp))
            if dec(meta.title) != title or dec(meta.author) != "Ann Author" or dec(meta.last_saved_by) != "Zoë":
                return fail("olefile metadata mismatch cp %d: %r %r" % (cp, meta.title, meta.author))
            if dec(meta.subject) != "subj" or dec(meta.keywords) != "k1 k2" or dec(meta.comments) != "a comment":
                return fail("olefile subject/keywords/comments mismatch cp %d" % cp)
            if meta.create_time != when or meta.last_saved_time != when + _dt.timedelta(days=1):
                return fail("olefile times mismatch cp %d: %r" % (cp, meta.create_time))
    with olefile.OleFileIO(io.BytesIO(write_cfb(base))) as ole:
        meta = ole.get_metadata()
        if meta.category != b"cat" or meta.company != b"Firma":
            return fail("olefile DocumentSummaryInformation mismatch: %r %r" % (meta.category, meta.company))
    # hostile count: header says far more properties than exist; structure otherwise intact
    ps = property_set({2: "t"}, count_override=0x10000)
    if struct.unpack_from("<I", ps, 52)[0] != 0x10000 or parse_property_set(ps).get(2) != "t":
        return fail("count_override not written")
    if verbose:
        print("ole2 selfcheck ok")
    return True


if __name__ == "__main__":
    import sys
    sys.exit(0 if selfcheck(verbose=True) else 1)
