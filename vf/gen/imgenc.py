"""Minimal raster encoders with chosen pixel sizes (stdlib only: struct, zlib, io).

png / gif / bmp / jpeg produce small, valid, deterministic files whose pixel content is a pattern
derived from ``seed`` (different seeds -> different bytes). ``sniff`` is an independent header parser.
``selfcheck`` validates the encoders structurally (and decodes GIF LZW / the JPEG entropy stream).
"""
import io
import struct
import zlib

__all__ = ["png", "gif", "bmp", "jpeg", "sniff", "selfcheck"]


# ----------------------------------------------------------------------------------------------
# deterministic pattern
# ----------------------------------------------------------------------------------------------

def _mix(x: int) -> int:
    """32-bit integer hash (xorshift-multiply); pure function of x."""
    x &= 0xFFFFFFFF
    x ^= x >> 16
    x = (x * 0x7FEB352D) & 0xFFFFFFFF
    x ^= x >> 15
    x = (x * 0x846CA68B) & 0xFFFFFFFF
    x ^= x >> 16
    return x


def _check_dims(w: int, h: int, limit: int = 65535) -> None:
    if not (isinstance(w, int) and isinstance(h, int)) or w < 1 or h < 1:
        raise ValueError("width and height must be integers >= 1")
    if w > limit or h > limit:
        raise ValueError("width/height too large for this format")


def _rgb_row(w: int, y: int, seed: int) -> bytes:
    base = _mix(seed * 0x9E3779B1 + y * 0x85EBCA6B + 0x1234567)
    out = bytearray(3 * w)
    for x in range(w):
        v = _mix(base + x * 0x27D4EB2F)
        out[3 * x] = v & 0xFF
        out[3 * x + 1] = (v >> 8) & 0xFF
        out[3 * x + 2] = (v >> 16) & 0xFF
    return bytes(out)


# ----------------------------------------------------------------------------------------------
# PNG
# ----------------------------------------------------------------------------------------------

_PNG_SIG = b"\x89PNG\r\n\x1a\n"


def _png_chunk(kind: bytes, payload: bytes) -> bytes:
    return struct.pack(">I", len(payload)) + kind + payload + struct.pack(">I", zlib.crc32(kind + payload) & 0xFFFFFFFF)


def png(w: int, h: int, seed: int = 0) -> bytes:
    """8-bit RGB PNG (colour type 2), filter 0 on every row, one IDAT."""
    _check_dims(w, h, 0x7FFFFFFF)
    raw = bytearray()
    for y in range(h):
        raw.append(0)
        raw += _rgb_row(w, y, seed)
    ihdr = struct.pack(">IIBBBBB", w, h, 8, 2, 0, 0, 0)
    return _PNG_SIG + _png_chunk(b"IHDR", ihdr) + _png_chunk(b"IDAT", zlib.compress(bytes(raw), 9)) + _png_chunk(b"IEND", b"")


def png_with_declared_size(data: bytes, w: int, h: int) -> bytes:
    """Rewrite the IHDR of a PNG produced by png() so that it declares w x h (CRC kept valid); the pixel data is left as it is.
    Used for degenerate headers (a declared dimension of 0) that a reader has to survive."""
    assert data[:8] == _PNG_SIG and data[12:16] == b"IHDR"
    ihdr = struct.pack(">II", w, h) + data[24:29]
    return data[:8] + _png_chunk(b"IHDR", ihdr) + data[33:]


# ----------------------------------------------------------------------------------------------
# GIF
# ----------------------------------------------------------------------------------------------

def _gif_indices(w: int, h: int, seed: int) -> bytes:
    out = bytearray(w * h)
    i = 0
    for y in range(h):
        base = _mix(seed * 0x9E3779B1 + y * 0xC2B2AE35 + 0x51ED27)
        for x in range(w):
            out[i] = _mix(base + x * 0x27D4EB2F) & 3
            i += 1
    return bytes(out)


def gif(w: int, h: int, seed: int = 0) -> bytes:
    """GIF89a, global 4-colour palette, one non-interlaced image.

    LZW with minimum code size 2 (clear=4, end=5, first code width 3). A clear code is emitted before
    every pair of pixels so the decoder's table never reaches 8 entries and the code width stays 3.
    """
    _check_dims(w, h)
    pal = bytearray()
    for k in range(4):
        v = _mix(seed * 0x9E3779B1 + k + 0xA5A5)
        pal += bytes((v & 0xFF, (v >> 8) & 0xFF, (v >> 16) & 0xFF))
    idx = _gif_indices(w, h, seed)

    acc = 0
    nbits = 0
    packed = bytearray()

    def put(code: int) -> None:
        nonlocal acc, nbits
        acc |= code << nbits
        nbits += 3
        while nbits >= 8:
            packed.append(acc & 0xFF)
            acc >>= 8
            nbits -= 8

    for i, p in enumerate(idx):
        if i % 2 == 0:
            put(4)
        put(p)
    put(5)
    if nbits:
        packed.append(acc & 0xFF)

    out = bytearray(b"GIF89a")
    # logical screen: global colour table present, colour resolution 2 bits, table size 2^(1+1)=4
    out += struct.pack("<HHBBB", w, h, 0x80 | (1 << 4) | 1, 0, 0)
    out += pal
    out += b"\x2c" + struct.pack("<HHHHB", 0, 0, w, h, 0)
    out.append(2)
    for off in range(0, len(packed), 255):
        blk = packed[off:off + 255]
        out.append(len(blk))
        out += blk
    out.append(0)
    out.append(0x3B)
    return bytes(out)


# ----------------------------------------------------------------------------------------------
# BMP
# ----------------------------------------------------------------------------------------------

def bmp(w: int, h: int, seed: int = 0, top_down: bool = False) -> bytes:
    """BITMAPINFOHEADER, 24-bit BI_RGB, rows padded to 4 bytes; bottom-up, or top-down (biHeight = -h, rows stored first to last)."""
    _check_dims(w, h, 0x7FFFFFFF)
    pad = (-3 * w) % 4
    body = bytearray()
    for y in (range(h) if top_down else range(h - 1, -1, -1)):
        rgb = _rgb_row(w, y, seed)
        row = bytearray(3 * w)
        row[0::3] = rgb[2::3]  # BGR
        row[1::3] = rgb[1::3]
        row[2::3] = rgb[0::3]
        body += row + b"\0" * pad
    off = 14 + 40
    head = b"BM" + struct.pack("<IHHI", off + len(body), 0, 0, off)
    dib = struct.pack("<IiiHHIIiiII", 40, w, -h if top_down else h, 1, 24, 0, len(body), 2835, 2835, 0, 0)
    return head + dib + bytes(body)


# ----------------------------------------------------------------------------------------------
# JPEG (baseline, 8-bit greyscale, DC-only blocks)
# ----------------------------------------------------------------------------------------------

_ZIGZAG = (
    0, 1, 8, 16, 9, 2, 3, 10, 17, 24, 32, 25, 18, 11, 4, 5, 12, 19, 26, 33, 40, 48, 41, 34, 27, 20, 13, 6, 7, 14, 21, 28,
    35, 42, 49, 56, 57, 50, 43, 36, 29, 22, 15, 23, 30, 37, 44, 51, 58, 59, 52, 45, 38, 31, 39, 46, 53, 60, 61, 54, 47, 55, 62, 63,
)

# ITU T.81 Annex K.1 luminance quantisation table (natural order)
_QLUM = (
    16, 11, 10, 16, 24, 40, 51, 61,
    12, 12, 14, 19, 26, 58, 60, 55,
    14, 13, 16, 24, 40, 57, 69, 56,
    14, 17, 22, 29, 51, 87, 80, 62,
    18, 22, 37, 56, 68, 109, 103, 77,
    24, 35, 55, 64, 81, 104, 113, 92,
    49, 64, 78, 87, 103, 121, 120, 101,
    72, 92, 95, 98, 112, 100, 103, 99,
)

# ITU T.81 Annex K.3 luminance Huffman tables
_DC_BITS = (0, 1, 5, 1, 1, 1, 1, 1, 1, 0, 0, 0, 0, 0, 0, 0)
_DC_VALS = tuple(range(12))
_AC_BITS = (0, 2, 1, 3, 3, 2, 4, 3, 5, 5, 4, 4, 0, 0, 1, 0x7D)
_AC_VALS = (
    0x01, 0x02, 0x03, 0x00, 0x04, 0x11, 0x05, 0x12, 0x21, 0x31, 0x41, 0x06, 0x13, 0x51, 0x61, 0x07,
    0x22, 0x71, 0x14, 0x32, 0x81, 0x91, 0xA1, 0x08, 0x23, 0x42, 0xB1, 0xC1, 0x15, 0x52, 0xD1, 0xF0,
    0x24, 0x33, 0x62, 0x72, 0x82, 0x09, 0x0A, 0x16, 0x17, 0x18, 0x19, 0x1A, 0x25, 0x26, 0x27, 0x28,
    0x29, 0x2A, 0x34, 0x35, 0x36, 0x37, 0x38, 0x39, 0x3A, 0x43, 0x44, 0x45, 0x46, 0x47, 0x48, 0x49,
    0x4A, 0x53, 0x54, 0x55, 0x56, 0x57, 0x58, 0x59, 0x5A, 0x63, 0x64, 0x65, 0x66, 0x67, 0x68, 0x69,
    0x6A, 0x73, 0x74, 0x75, 0x76, 0x77, 0x78, 0x79, 0x7A, 0x83, 0x84, 0x85, 0x86, 0x87, 0x88, 0x89,
    0x8A, 0x92, 0x93, 0x94, 0x95, 0x96, 0x97, 0x98, 0x99, 0x9A, 0xA2, 0xA3, 0xA4, 0xA5, 0xA6, 0xA7,
    0xA8, 0xA9, 0xAA, 0xB2, 0xB3, 0xB4, 0xB5, 0xB6, 0xB7, 0xB8, 0xB9, 0xBA, 0xC2, 0xC3, 0xC4, 0xC5,
    0xC6, 0xC7, 0xC8, 0xC9, 0xCA, 0xD2, 0xD3, 0xD4, 0xD5, 0xD6, 0xD7, 0xD8, 0xD9, 0xDA, 0xE1, 0xE2,
    0xE3, 0xE4, 0xE5, 0xE6, 0xE7, 0xE8, 0xE9, 0xEA, 0xF1, 0xF2, 0xF3, 0xF4, 0xF5, 0xF6, 0xF7, 0xF8,
    0xF9, 0xFA,
)


def _huff_codes(bits, vals) -> dict[int, tuple[int, int]]:
    """symbol -> (code, length), canonical assignment per T.81 Annex C."""
    table: dict[int, tuple[int, int]] = {}
    code = 0
    k = 0
    for length in range(1, 17):
        for _ in range(bits[length - 1]):
            table[vals[k]] = (code, length)
            code += 1
            k += 1
        code <<= 1
    return table


def _seg(marker: int, payload: bytes) -> bytes:
    return bytes((0xFF, marker)) + struct.pack(">H", len(payload) + 2) + payload


def _jpeg_dc_levels(nblocks: int, seed: int) -> list[int]:
    """Quantised DC level of each block, in [-60, 60] (sample mean ~ 128 + 2*level)."""
    return [(_mix(seed * 0x9E3779B1 + i * 0x27D4EB2F + 0x77) % 121) - 60 for i in range(nblocks)]


def jpeg(w: int, h: int, seed: int = 0, thumbnail: tuple[int, int] | None = None) -> bytes:
    """Baseline JFIF, one 8-bit component, every 8x8 block constant (DC coefficient + EOB).
    thumbnail=(tw, th): an APP1/Exif segment carrying a complete thumbnail JPEG of that size is placed before the frame header
    (what cameras write); a reader has to skip the segment by its length instead of scanning its payload for markers."""
    _check_dims(w, h)
    bw, bh = (w + 7) // 8, (h + 7) // 8
    dc_tab = _huff_codes(_DC_BITS, _DC_VALS)
    ac_tab = _huff_codes(_AC_BITS, _AC_VALS)
    eob_code, eob_len = ac_tab[0x00]

    acc = 0
    nbits = 0
    scan = bytearray()

    def put(code: int, length: int) -> None:
        nonlocal acc, nbits
        acc = (acc << length) | code
        nbits += length
        while nbits >= 8:
            b = (acc >> (nbits - 8)) & 0xFF
            scan.append(b)
            if b == 0xFF:
                scan.append(0)
            nbits -= 8
        acc &= (1 << nbits) - 1

    pred = 0
    for level in _jpeg_dc_levels(bw * bh, seed):
        diff = level - pred
        pred = level
        cat = abs(diff).bit_length()
        code, length = dc_tab[cat]
        put(code, length)
        if cat:
            put(diff if diff >= 0 else diff + (1 << cat) - 1, cat)
        put(eob_code, eob_len)
    if nbits:
        put((1 << (8 - nbits)) - 1, 8 - nbits)  # pad with 1-bits

    out = bytearray(b"\xff\xd8")
    out += _seg(0xE0, b"JFIF\0" + struct.pack(">BBBHHBB", 1, 1, 0, 1, 1, 0, 0))
    if thumbnail:
        thumb = jpeg(thumbnail[0], thumbnail[1], seed + 1)
        # Exif header, little-endian TIFF with an empty IFD0 whose "next IFD" points at IFD1 = {JPEGInterchangeFormat, ...Length}, then the thumbnail
        tiff = b"II*\x00" + struct.pack("<I", 8) + struct.pack("<H", 0) + struct.pack("<I", 14)
        tiff += struct.pack("<H", 2) + struct.pack("<HHII", 0x0201, 4, 1, 14 + 2 + 24 + 4) + struct.pack("<HHII", 0x0202, 4, 1, len(thumb)) + struct.pack("<I", 0)
        out += _seg(0xE1, b"Exif\0\0" + tiff + thumb)
    out += _seg(0xDB, b"\x00" + bytes(_QLUM[_ZIGZAG[i]] for i in range(64)))
    out += _seg(0xC0, struct.pack(">BHHB", 8, h, w, 1) + bytes((1, 0x11, 0)))
    out += _seg(0xC4, b"\x00" + bytes(_DC_BITS) + bytes(_DC_VALS))
    out += _seg(0xC4, b"\x10" + bytes(_AC_BITS) + bytes(_AC_VALS))
    out += _seg(0xDA, bytes((1, 1, 0x00, 0, 63, 0)))
    out += scan
    out += b"\xff\xd9"
    return bytes(out)


# ----------------------------------------------------------------------------------------------
# sniff: independent header parser
# ----------------------------------------------------------------------------------------------

def sniff(data: bytes) -> tuple[str, int, int] | None:
    """Return (kind, width, height) from the file header, or None if not recognised/truncated."""
    data = bytes(data)
    n = len(data)
    if data[:8] == b"\x89PNG\r\n\x1a\n":
        if n >= 24 and data[12:16] == b"IHDR" and int.from_bytes(data[8:12], "big") == 13:
            return ("png", int.from_bytes(data[16:20], "big"), int.from_bytes(data[20:24], "big"))
        return None
    if data[:6] in (b"GIF87a", b"GIF89a"):
        if n >= 10:
            return ("gif", data[6] | data[7] << 8, data[8] | data[9] << 8)
        return None
    if data[:2] == b"BM":
        if n < 26:
            return None
        dib = int.from_bytes(data[14:18], "little")
        if dib == 12:  # BITMAPCOREHEADER
            return ("bmp", int.from_bytes(data[18:20], "little"), int.from_bytes(data[20:22], "little"))
        if dib >= 40:
            wv = int.from_bytes(data[18:22], "little", signed=True)
            hv = int.from_bytes(data[22:26], "little", signed=True)
            return ("bmp", abs(wv), abs(hv))
        return None
    if data[:2] == b"\xff\xd8":
        pos = 2
        while pos + 4 <= n:
            if data[pos] != 0xFF:
                return None
            m = data[pos + 1]
            if m == 0xFF:  # fill byte
                pos += 1
                continue
            if m == 0x01 or 0xD0 <= m <= 0xD8:  # standalone markers
                pos += 2
                continue
            if m == 0xD9:
                return None
            seglen = int.from_bytes(data[pos + 2:pos + 4], "big")
            if seglen < 2:
                return None
            if 0xC0 <= m <= 0xCF and m not in (0xC4, 0xC8, 0xCC):
                if pos + 9 > n:
                    return None
                hv = int.from_bytes(data[pos + 5:pos + 7], "big")
                wv = int.from_bytes(data[pos + 7:pos + 9], "big")
                return ("jpeg", wv, hv)
            if m == 0xDA:
                return None
            pos += 2 + seglen
        return None
    return None


# ----------------------------------------------------------------------------------------------
# selfcheck helpers (decoders written separately from the encoders above)
# ----------------------------------------------------------------------------------------------

def _png_inflate(data: bytes) -> tuple[int, int, bytes]:
    """Walk chunks verifying CRCs; return (w, h, inflated IDAT)."""
    assert data[:8] == _PNG_SIG
    pos = 8
    idat = b""
    kinds = []
    w = h = -1
    while pos < len(data):
        ln = int.from_bytes(data[pos:pos + 4], "big")
        kind = data[pos + 4:pos + 8]
        payload = data[pos + 8:pos + 8 + ln]
        assert len(payload) == ln
        crc = int.from_bytes(data[pos + 8 + ln:pos + 12 + ln], "big")
        assert crc == zlib.crc32(kind + payload) & 0xFFFFFFFF, "bad CRC in " + repr(kind)
        kinds.append(kind)
        if kind == b"IHDR":
            w, h, depth, ctype, comp, filt, inter = struct.unpack(">IIBBBBB", payload)
            assert (depth, ctype, comp, filt, inter) == (8, 2, 0, 0, 0)
        elif kind == b"IDAT":
            idat += payload
        pos += 12 + ln
    assert pos == len(data)
    assert kinds[0] == b"IHDR" and kinds[-1] == b"IEND" and b"IDAT" in kinds
    return w, h, zlib.decompress(idat)


def _gif_decode(data: bytes) -> tuple[int, int, list[int]]:
    """Tiny general GIF LZW decoder (variable code width, clear/end codes) for a one-image file."""
    assert data[:6] == b"GIF89a"
    sw, sh, packed = struct.unpack("<HHB", data[6:11])
    pos = 13
    if packed & 0x80:
        pos += 3 * (2 << (packed & 7))
    assert data[pos] == 0x2C, "expected image descriptor"
    _, _, w, h, ipacked = struct.unpack("<HHHHB", data[pos + 1:pos + 10])
    assert (w, h) == (sw, sh) and not (ipacked & 0xC0)
    pos += 10
    mcs = data[pos]
    pos += 1
    stream = bytearray()
    while True:
        ln = data[pos]
        pos += 1
        if ln == 0:
            break
        assert pos + ln <= len(data)
        stream += data[pos:pos + ln]
        pos += ln
    assert data[pos:] == b"\x3b", "trailer must follow the image data"

    clear, end = 1 << mcs, (1 << mcs) + 1
    width = mcs + 1
    table: list[list[int]] = []

    def reset() -> None:
        nonlocal table, width
        table = [[i] for i in range(clear)] + [[], []]
        width = mcs + 1

    reset()
    out: list[int] = []
    prev: list[int] | None = None
    acc = 0
    nb = 0
    sp = 0
    ended = False
    while True:
        while nb < width and sp < len(stream):
            acc |= stream[sp] << nb
            sp += 1
            nb += 8
        if nb < width:
            break
        code = acc & ((1 << width) - 1)
        acc >>= width
        nb -= width
        if code == clear:
            reset()
            prev = None
            continue
        if code == end:
            ended = True
            break
        if prev is None:
            assert code < clear, "first code after clear must be a literal"
            entry = table[code]
        elif code < len(table):
            entry = table[code]
            table.append(prev + [entry[0]])
        else:
            assert code == len(table), "LZW code out of range"
            entry = prev + [prev[0]]
            table.append(entry)
        out.extend(entry)
        prev = entry
        if len(table) == (1 << width) and width < 12:
            width += 1
    assert ended, "no end-of-information code"
    assert sp == len(stream) and acc == 0, "trailing garbage after end code"
    return w, h, out


def _jpeg_walk(data: bytes) -> dict:
    """Walk SOI..EOI, collect tables, Huffman-decode the single scan. Returns a summary dict."""
    assert data[:2] == b"\xff\xd8" and data[-2:] == b"\xff\xd9"
    pos = 2
    markers = []
    qt: dict[int, list[int]] = {}
    huff: dict[tuple[int, int], dict[tuple[int, int], int]] = {}
    frame = None
    scan_hdr = None
    while True:
        assert data[pos] == 0xFF, "marker expected at %d" % pos
        m = data[pos + 1]
        ln = int.from_bytes(data[pos + 2:pos + 4], "big")
        body = data[pos + 4:pos + 2 + ln]
        assert len(body) == ln - 2
        markers.append(m)
        if m == 0xE0:
            assert body[:5] == b"JFIF\0"
        elif m == 0xDB:
            assert body[0] >> 4 == 0 and len(body) == 65
            qt[body[0] & 15] = list(body[1:])
        elif m == 0xC0:
            prec, fh, fw, nc = struct.unpack(">BHHB", body[:6])
            assert prec == 8 and nc == 1 and len(body) == 9
            frame = {"w": fw, "h": fh, "id": body[6], "samp": body[7], "tq": body[8]}
        elif m == 0xC4:
            tc, th = body[0] >> 4, body[0] & 15
            bits = body[1:17]
            vals = body[17:]
            assert sum(bits) == len(vals)
            lut = {}
            code = 0
            k = 0
            for length in range(1, 17):
                for _ in range(bits[length - 1]):
                    lut[(length, code)] = vals[k]
                    code += 1
                    k += 1
                assert code <= (1 << length), "over-subscribed Huffman table"
                code <<= 1
            huff[(tc, th)] = lut
        elif m == 0xDA:
            assert body[0] == 1 and len(body) == 6
            scan_hdr = {"id": body[1], "td": body[2] >> 4, "ta": body[2] & 15, "ss": body[3], "se": body[4], "a": body[5]}
            pos += 2 + ln
            break
        else:
            raise AssertionError("unexpected marker %02x" % m)
        pos += 2 + ln
    assert markers == [0xE0, 0xDB, 0xC0, 0xC4, 0xC4, 0xDA]
    assert frame and scan_hdr and frame["id"] == scan_hdr["id"] and frame["samp"] == 0x11 and frame["tq"] in qt
    assert (scan_hdr["ss"], scan_hdr["se"], scan_hdr["a"]) == (0, 63, 0)
    assert qt[frame["tq"]][0] == 16 and sorted(qt[frame["tq"]]) == sorted(_QLUM)

    # un-stuff entropy-coded data up to EOI
    ecs = bytearray()
    while True:
        b = data[pos]
        if b == 0xFF:
            nxt = data[pos + 1]
            if nxt == 0x00:
                ecs.append(0xFF)
                pos += 2
                continue
            assert nxt == 0xD9, "unexpected marker inside scan"
            break
        ecs.append(b)
        pos += 1
    assert pos == len(data) - 2

    bitpos = 0
    total = len(ecs) * 8

    def getbit() -> int:
        nonlocal bitpos
        assert bitpos < total, "ran out of scan data"
        v = (ecs[bitpos >> 3] >> (7 - (bitpos & 7))) & 1
        bitpos += 1
        return v

    def getbits(k: int) -> int:
        v = 0
        for _ in range(k):
            v = (v << 1) | getbit()
        return v

    def decode(lut) -> int:
        code = 0
        for length in range(1, 17):
            code = (code << 1) | getbit()
            if (length, code) in lut:
                return lut[(length, code)]
        raise AssertionError("invalid Huffman code")

    def extend(v: int, t: int) -> int:
        return v if t == 0 or v >= (1 << (t - 1)) else v - (1 << t) + 1

    dc_lut = huff[(0, scan_hdr["td"])]
    ac_lut = huff[(1, scan_hdr["ta"])]
    nblocks = ((frame["w"] + 7) // 8) * ((frame["h"] + 7) // 8)
    pred = 0
    dcs = []
    for _ in range(nblocks):
        t = decode(dc_lut)
        assert t <= 11
        pred += extend(getbits(t), t)
        assert -1024 <= pred * 16 <= 1016
        dcs.append(pred)
        k = 1
        while k < 64:
            rs = decode(ac_lut)
            r, s = rs >> 4, rs & 15
            if s == 0:
                if r == 15:
                    k += 16
                    continue
                break  # EOB
            k += r
            assert k < 64
            getbits(s)
            k += 1
    rest = total - bitpos
    assert 0 <= rest < 8, "extra bytes after last block"
    assert getbits(rest) == (1 << rest) - 1, "padding must be 1-bits"
    return {"w": frame["w"], "h": frame["h"], "blocks": nblocks, "dc": dcs}


def _pypdf_crosscheck(jpg: bytes, w: int, h: int) -> str:
    """Embed in a PDF; read back with pypdf. Returns 'images' / 'stream' / 'skipped'."""
    try:
        import pypdf  # noqa: F401
        from . import pdfw
    except Exception:
        return "skipped"
    pdf = pdfw.write_pdf([{"lines": ["x"], "images": [{"data": jpg, "w": w, "h": h}]}])
    reader = pypdf.PdfReader(io.BytesIO(pdf))
    page = reader.pages[0]
    xo = page["/Resources"]["/XObject"]
    names = list(xo.keys())
    assert len(names) == 1
    obj = xo[names[0]].get_object()
    assert obj["/Subtype"] == "/Image" and int(obj["/Width"]) == w and int(obj["/Height"]) == h
    assert obj["/Filter"] == "/DCTDecode"
    assert bytes(obj.get_data()) == jpg
    try:
        imgs = list(page.images)  # needs PIL in pypdf 6.x
    except ImportError:
        return "stream"
    assert len(imgs) == 1 and bytes(imgs[0].data)[:2] == b"\xff\xd8"
    return "images"


SELFCHECK_SIZES = ((1, 1), (3, 5), (16, 16), (100, 37))
last_selfcheck: dict = {}


def selfcheck() -> bool:
    # table sanity: AC symbols are exactly {EOB, ZRL} + all (run 0..15, size 1..10)
    assert len(_AC_VALS) == 162 == sum(_AC_BITS) and len(set(_AC_VALS)) == 162
    assert set(_AC_VALS) == {0x00, 0xF0} | {(r << 4) | s for r in range(16) for s in range(1, 11)}
    assert sorted(_ZIGZAG) == list(range(64)) and sum(_DC_BITS) == 12
    modes = set()
    for (w, h) in SELFCHECK_SIZES:
        encs = {"png": png, "gif": gif, "bmp": bmp, "jpeg": jpeg}
        for kind, fn in encs.items():
            a, b, c = fn(w, h, 0), fn(w, h, 0), fn(w, h, 1)
            assert a == b, kind + " not deterministic"
            assert a != c, kind + " ignores seed"
            assert sniff(a) == (kind, w, h), (kind, w, h, sniff(a))
            assert sniff(a[:5]) is None
        # PNG
        pw, ph, raw = _png_inflate(png(w, h, 7))
        assert (pw, ph) == (w, h) and len(raw) == h * (1 + 3 * w)
        assert all(raw[y * (1 + 3 * w)] == 0 for y in range(h))
        # GIF
        gw, gh, idx = _gif_decode(gif(w, h, 7))
        assert (gw, gh) == (w, h) and len(idx) == w * h and bytes(idx) == _gif_indices(w, h, 7)
        # BMP
        bd = bmp(w, h, 7)
        stride = (3 * w + 3) // 4 * 4
        assert len(bd) == 54 + stride * h == int.from_bytes(bd[2:6], "little")
        assert struct.unpack("<HH", bd[26:30]) == (1, 24) and int.from_bytes(bd[10:14], "little") == 54
        assert bd[54 + stride * (h - 1):54 + stride * (h - 1) + 3] == _rgb_row(w, 0, 7)[2::-1]  # top row stored last, BGR
        # JPEG
        jd = jpeg(w, h, 7)
        info = _jpeg_walk(jd)
        assert (info["w"], info["h"]) == (w, h)
        assert info["dc"] == _jpeg_dc_levels(info["blocks"], 7)
        modes.add(_pypdf_crosscheck(jd, w, h))
    last_selfcheck["pypdf_mode"] = sorted(modes)
    assert sniff(b"") is None and sniff(b"hello world, this is not an image") is None
    return True
